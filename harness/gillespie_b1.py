"""B1 binding for Gillespie_SIR / Gillespie_SIS: walk the TLC-emitted state graph
of NetEpi and compare, at every history the implementation can produce, the
implementation's next-event kernel / clock rate / stopping behaviour / reported
state with the specification's."""
import math

from .common import RATE_UNIT
from . import kernel, observe
from .netepi import build_graph
from .scripted import explore, run_scripted, Incomplete, Unmodelled, tagged

SG = None  # SpecGraph, set by the check before forking


def all_keys(consts):
    """Every (w, g, tau, gam) valuation the specification's Init admits."""
    import itertools
    n = consts["N"]
    npairs = n * (n - 1) // 2
    ws = itertools.product([0] + sorted(consts["EW"]), repeat=npairs)
    out = []
    for w in ws:
        for g in itertools.product(sorted(consts["NW"]), repeat=n):
            for tau in sorted(consts["TauSet"]):
                for gam in sorted(consts["GamSet"]):
                    out.append((tuple(w), tuple(g), tau, gam))
    return out


def all_states(n, sis):
    import itertools
    return list(itertools.product(("S", "I") if sis else ("S", "I", "R"), repeat=n))


def run_scenario(task):
    """task: dict(key, st0, sis, weighted, tmin, horizon, arrays)
    returns dict(problems=[...], leaves=int, events=int, nodes=int)"""
    import EoN
    sg = SG
    key, st0, sis = task["key"], tuple(task["st0"]), task["sis"]
    w, g, tau_n, gam_n = key
    n = len(st0)
    weighted = task["weighted"]
    tmin = task.get("tmin", 0)
    horizon = task.get("horizon")
    scale = task.get("scale", 1.0)     # a power of two: very slow / very fast epidemics, float arithmetic stays exact
    tau = tau_n * RATE_UNIT * scale
    gam = gam_n * RATE_UNIT * scale
    G = build_graph(n, w, g)
    nodes = list(range(1, n + 1))
    if task.get("selfloops"):
        for u in nodes:
            if (u + len(st0)) % 2 == 0 or st0[u - 1] == "S":
                G.add_edge(u, u, w=3.0)
    I0 = [u for u in nodes if st0[u - 1] == "I"]
    R0 = [u for u in nodes if st0[u - 1] == "R"]
    kw = {"tmin": tmin}
    if weighted:
        kw["transmission_weight"] = "w"
        kw["recovery_weight"] = "g"
    if horizon is not None:
        kw["tmax"] = tmin + horizon + 0.5
    elif sis:
        raise ValueError("SIS needs a horizon")
    if sis:
        entry = "Gillespie_SIS"
        f = EoN.Gillespie_SIS
    else:
        entry = "Gillespie_SIR"
        f = EoN.Gillespie_SIR
        if R0 or task.get("pass_empty_R"):
            kw["initial_recovereds"] = R0

    if weighted and (sum(w) + len(I0)) % 2 == 0:
        # half of the weighted scenarios start from a graph object that was simulated on before while it carried other
        # weights (edited in place since): what the object "remembers" must not matter
        from .common import prime_other_weights
        pkw = dict(kw)
        pkw["tmax"] = tmin + 0.25 / max(scale, 1e-9)
        prime_other_weights(G, lambda g_: f(g_, tau, gam, initial_infecteds=list(I0), **pkw))

    def fn_full():
        sim = f(G, tau, gam, initial_infecteds=list(I0), return_full_data=True, **kw)
        return observe.full_data_observation(sim, nodes)

    def fn_arr():
        return [list(map(float, a)) for a in f(G, tau, gam, initial_infecteds=list(I0), **kw)]

    problems = []
    succ_at_start = sg.succ(key, st0)
    cls0 = "initial-total-rate-0" if not succ_at_start else "initial-total-rate-positive"
    max_exp = (horizon + 2) if horizon is not None else (2 * n + 2)
    wcls = "weighted" if weighted else "unweighted"

    def succ(st):
        return [((kind, u, v), r, st2) for (kind, u, v, r, st2) in sg.succ(key, st)]

    def succ_nosrc(st):
        agg = {}
        for (kind, u, v, r, st2) in sg.succ(key, st):
            k = (kind, None, v) if kind == "T" else (kind, u, v)
            a = agg.setdefault(k, [0, st2])
            a[0] += r
        return [(k, a[0], a[1]) for k, a in agg.items()]

    recs = []
    notes = set()
    counters = {"events": 0}

    def on_leaf(l):
        """Path-wise validation of one leaf (does not need the whole tree); a
        truthy return stops the exploration of this scenario."""
        if l.loop is not None:
            return False
        if l.error is not None:
            problems.append({"kind": "exception:%s" % type(l.error).__name__, "cls": cls0,
                             "detail": "%s(return_full_data=True) raised %r" % (entry, l.error),
                             "script": l.script})
            return True
        obs = l.result
        if obs["trans_err"] is not None:
            # owned by C09 (exposure of the transmission list); here the kernel is
            # compared with the infector projected away
            notes.add("%s full data: transmissions() raised %r; infector not observable" % (entry, obs["trans_err"]))
        ini = observe.initial_state(obs, nodes)
        if ini != st0:
            problems.append({"kind": "initial-state", "cls": "full-data",
                             "detail": "histories start in %r, requested %r" % (ini, st0), "script": l.script})
            return True
        ev = observe.epidemic_events(obs, nodes)
        sc = succ
        if obs["trans"] is None:
            # without the transmissions list the infector is unobservable: compare
            # the kernel on events with the source projected away
            ev = [("T", None, e[2]) if e[0] == "T" else e for e in ev]
            sc = succ_nosrc
        # event times must be tmin+1, tmin+2, ... under the unit-delay clock
        times = [c[0] for c in observe.changes(obs, nodes)]
        if times != [tmin + i + 1.0 for i in range(len(times))]:
            problems.append({"kind": "event-times", "cls": "full-data",
                             "detail": "event times %r under a unit-delay clock from tmin=%r" % (times, tmin),
                             "script": l.script})
            return True
        # walk the specification along the history: every event must be enabled
        st = st0
        for i, e in enumerate(ev):
            nxt = [x for x in sc(st) if x[0] == e]
            if not nxt:
                problems.append({"kind": "impossible-event", "cls": wcls, "history": ev[:i],
                                 "detail": "event %r is not enabled in the specification state %r" % (e, st),
                                 "script": l.script})
                return True
            st = nxt[0][2]
        recs.append({"prob": None, "events": ev, "exps": observe.exp_rates(l.tape), "leaf": l, "nosrc": obs["trans"] is None})
        counters["events"] += len(ev)
        return False

    unmodelled = None
    try:
        with tagged():
            leaves = explore(fn_full, max_exp=max_exp, on_leaf=on_leaf, max_leaves=task.get("max_leaves", 60000), deep_is_error=True)
    except Unmodelled as ex:
        unmodelled = str(ex)
        leaves = Incomplete()
        del problems[:]
    nevents = counters["events"]
    stats = {"nodes": 0}
    if not isinstance(leaves, Incomplete):
        for r in recs:
            r["prob"] = r["leaf"].prob
        nosrc = any(r["nosrc"] for r in recs)
        probs, stats = kernel.compare(recs, st0, succ_nosrc if nosrc else succ, RATE_UNIT * scale, horizon=horizon)
        for p in probs:
            p["cls"] = wcls
            problems.append(p)
    else:
        recs = []

    # findings that depend on the scripted source modelling the implementation's use of random numbers are settled
    # with the real random source (harness/confirm.py)
    def real(seed):
        import random
        r0 = sum(x[1] for x in succ(st0)) * RATE_UNIT * scale
        kwr = dict(kw)
        T = float("inf")
        if sis or horizon is not None:
            T = tmin + (4.0 / r0 if r0 > 0 else 1.0)
            kwr["tmax"] = T
        random.seed(seed)
        try:
            sim = f(G, tau, gam, initial_infecteds=list(I0), return_full_data=True, **kwr)
            obs = observe.full_data_observation(sim, nodes)
        except Exception as ex:
            return {"error": ex}
        ev = observe.epidemic_events(obs, nodes)
        if obs["trans"] is None:
            flags["nosrc"] = True
            ev = [("T", None, e[2]) if e[0] == "T" else e for e in ev]
        times = [c[0] for c in observe.changes(obs, nodes)]
        return {"events": list(zip(times, ev)), "tmin": tmin, "tmax": T, "error": None}

    from . import walk as _walk
    from . import confirm as _confirm
    flags = {}
    if unmodelled is not None or _confirm.needs_confirmation(problems):
        real(-1)          # probe: is the infector observable in this implementation?
    problems, settled = _walk.settle(problems, unmodelled, real, st0, succ_nosrc if flags.get("nosrc") else succ, RATE_UNIT * scale, wcls)
    if settled is not None and settled["unmodelled"]:
        recs = []

    # array mode under the same scripts: same draws, rows = counts along the history
    narr = 0
    if task.get("arrays", True):
        statuses = ("S", "I") if sis else ("S", "I", "R")
        for r in recs:
            l = r["leaf"]
            la = run_scripted(fn_arr, l.script, max_exp=max_exp)
            narr += 1
            if la.error is not None:
                problems.append({"kind": "exception:%s" % type(la.error).__name__, "cls": cls0,
                                 "detail": "%s(return_full_data=False) raised %r" % (entry, la.error),
                                 "script": l.script})
                continue
            if observe.tape_signature(la.tape) != observe.tape_signature(l.tape):
                problems.append({"kind": "draws-depend-on-return-mode", "cls": "arrays",
                                 "detail": "the draws made with return_full_data=False differ from those with True",
                                 "script": l.script})
                continue
            rows = observe.counts_along(st0, r["events"], statuses, sis=sis)
            exp_t = [float(tmin + i) for i in range(len(rows))]
            got = la.result
            want = [exp_t] + [[float(row[j]) for row in rows] for j in range(len(statuses))]
            if got != want:
                problems.append({"kind": "arrays", "cls": "arrays",
                                 "detail": "returned arrays %r, history implies %r" % (got, want),
                                 "script": l.script})
    # errors with the array mode when the full-data mode had error leaves only
    if not recs and task.get("arrays", True):
        la = run_scripted(fn_arr, [])
        if la.error is not None:
            problems.append({"kind": "exception:%s" % type(la.error).__name__, "cls": cls0,
                             "detail": "%s(return_full_data=False) raised %r" % (entry, la.error), "script": []})
    return {"problems": problems, "leaves": len(leaves), "events": nevents, "nodes": stats["nodes"],
            "arr": narr, "entry": entry, "notes": sorted(notes), "settled": settled}

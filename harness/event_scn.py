"""Scenario families for the event-driven simulators (C11, C13, C04, C09, C10).
A scenario is a JSON-able dict shared verbatim by TLC (JsonDeserialize) and by
the replay harness."""
import itertools
import random as pyrandom

INF = 1000000


def sir_scenarios(seed, n_random, sizes=(3, 4), exhaustive2=True, dvals=(0, 1, 2, INF)):
    out = []
    if exhaustive2:
        inits = [("I", "S"), ("S", "I"), ("I", "I"), ("I", "R"), ("R", "I")]
        for edge in (1, 0):
            for init in inits:
                for d12, d21, u1, u2 in itertools.product(dvals, repeat=4):
                    if edge == 0 and (d12, d21) != (dvals[0], dvals[0]):
                        continue
                    for tmin, tmax in ((0, INF), (5, 7), (0, 2)):
                        out.append({"n": 2, "adj": [[0, edge], [edge, 0]], "init": list(init),
                                    "delay": [[0, d12], [d21, 0]], "dur": [u1, u2], "tmin": tmin, "tmax": tmax})
    rng = pyrandom.Random(seed)
    dpool = [0, 1, 1, 2, 2, 3, 4, INF]
    upool = [0, 1, 2, 2, 3, 5, INF]
    for _ in range(n_random):
        n = rng.choice(sizes)
        p = rng.choice([0.4, 0.6, 0.9])
        adj = [[0] * n for _ in range(n)]
        directed = 1 if rng.random() < 0.25 else 0       # a directed contact network: u can infect v along an arc u -> v only
        for u in range(n):
            for v in range(u + 1, n):
                if rng.random() < p:
                    adj[u][v] = adj[v][u] = 1
                    if directed and rng.random() < 0.6:
                        if rng.random() < 0.5:
                            adj[u][v] = 0
                        else:
                            adj[v][u] = 0
        init = ["S"] * n
        k = rng.choice([1, 1, 2])
        for u in rng.sample(range(n), k):
            init[u] = "I"
        if rng.random() < 0.4:
            cand = [u for u in range(n) if init[u] == "S"]
            if cand:
                init[rng.choice(cand)] = "R"
        delay = [[0 if u == v else rng.choice(dpool) for v in range(n)] for u in range(n)]
        dur = [rng.choice(upool) for _ in range(n)]
        tmin = rng.choice([0, 0, 3])
        tmax = rng.choice([INF, INF, tmin + 2, tmin + 4])
        out.append({"n": n, "adj": adj, "init": init, "delay": delay, "dur": dur, "tmin": tmin, "tmax": tmax, "directed": directed,
                    # the real calls are made with all absolute times moved by -shift (negative start times)
                    "shift": rng.choice([0, 0, 0, 7, 1000])})
    return out


def fl(x):
    return float("inf") if x >= INF else float(x)


def sis_lattice_scenarios(seed, n_random, sizes=(2, 3, 4)):
    """SIS scenarios whose durations and delays are small multiples of one step: simultaneous events everywhere
    (a transmission that arrives exactly when its target recovers, two infections of neighbours at one instant ...).
    The order of simultaneous events is not specified; what must hold whatever the order is checked by C04 / C10."""
    rng = pyrandom.Random(seed + 104729)
    out = []
    for _ in range(n_random):
        n = rng.choice(sizes)
        adj = [[0] * n for _ in range(n)]
        for u in range(n):
            for v in range(u + 1, n):
                if rng.random() < 0.8:
                    adj[u][v] = adj[v][u] = 1
        init = ["S"] * n
        for u in rng.sample(range(n), rng.choice([1, 2, 2])):
            init[u] = "I"
        K = 2
        dur = [[rng.choice([1, 2, 3]) for _ in range(K)] for _ in range(n)]
        delay = [[[sorted(rng.sample([1, 2, 3, 4, 5], rng.choice([0, 1, 2, 3]))) if adj[u][v] else [] for _k in range(K)] for v in range(n)] for u in range(n)]
        out.append({"n": n, "adj": adj, "init": init, "k": K, "dur": dur, "delay": delay, "tmin": 0, "tmax": rng.choice([6, 9, 12]),
                    "sorted": 1, "late": 1, "directed": 0, "shift": 0})
    return out


def sis_scenarios(seed, n_random, sizes=(2, 3, 4), unsorted_frac=0.0):
    rng = pyrandom.Random(seed + 7919)
    out = []
    for _ in range(n_random):
        n = rng.choice(sizes)
        p = rng.choice([0.5, 0.8, 1.0])
        adj = [[0] * n for _ in range(n)]
        directed = 1 if rng.random() < 0.2 else 0
        for u in range(n):
            for v in range(u + 1, n):
                if rng.random() < p:
                    adj[u][v] = adj[v][u] = 1
                    if directed and rng.random() < 0.5:
                        if rng.random() < 0.5:
                            adj[u][v] = 0
                        else:
                            adj[v][u] = 0
        init = ["S"] * n
        for u in rng.sample(range(n), rng.choice([1, 1, 2])):
            init[u] = "I"
        K = 3
        dur = [[rng.randint(200, 1200) for _ in range(K)] for _ in range(n)]
        uns = rng.random() < unsorted_frac
        late = rng.random() < 0.3
        selfloop = None
        if rng.random() < 0.15:
            # a node in contact with itself: its own listed attempts reinfect it when they arrive after its recovery
            selfloop = rng.randrange(n)
            adj[selfloop][selfloop] = 1
        delay = []
        for u in range(n):
            row = []
            for v in range(n):
                cell = []
                for k in range(K):
                    if not adj[u][v]:
                        cell.append([])
                        continue
                    m = rng.choice([0, 1, 1, 2, 3])
                    ds = sorted(rng.sample(range(1, dur[u][k] * (3 if u == v else 1)), min(m, dur[u][k] - 1)))
                    if late and ds and rng.random() < 0.5:
                        # an attempt later than the source's own recovery (the property sets no such limit)
                        ds = sorted(ds + [dur[u][k] + rng.randint(1, 900)])
                    if uns and len(ds) > 1:
                        rng.shuffle(ds)
                    cell.append(ds)
                row.append(cell)
            delay.append(row)
        tmin = rng.choice([0, 0, 500])
        tmax = tmin + rng.randint(1200, 4200)
        if rng.random() < 0.3:
            # a horizon that coincides with an event: the first attempt of an initially infected node on a susceptible
            # neighbour (an infection at exactly tmax), possibly plus that neighbour's duration (a recovery at exactly tmax)
            cands = []
            for u in range(n):
                if init[u] == "I":
                    for v in range(n):
                        if init[v] == "S" and delay[u][v][0]:
                            cands.append(min(delay[u][v][0]))
                            cands.append(min(delay[u][v][0]) + dur[v][0])
                    cands.append(dur[u][0])
            if cands:
                tmax = tmin + rng.choice(cands)
        srt = 1
        for u in range(n):
            for v in range(n):
                for k in range(K):
                    if delay[u][v][k] != sorted(delay[u][v][k]):
                        srt = 0
        out.append({"n": n, "adj": adj, "init": init, "k": K, "dur": dur, "delay": delay,
                    "tmin": tmin, "tmax": tmax, "sorted": srt, "late": 1 if (late or selfloop is not None) else 0, "directed": directed,
                    # the real call is made with all times shifted by -shift (negative start times); the semantics is shift invariant
                    "shift": rng.choice([0, 0, 700, 5000])})
    return out


def sir_generic_scenarios(seed, n_random, sizes=(3, 4, 5)):
    """event-driven SIR scenarios with generic (pairwise distinct w.h.p.) finite durations and delays:
    used to drive fast_SIR's unweighted path (binomial + sample + truncated exponentials)"""
    rng = pyrandom.Random(seed + 4242)
    out = []
    for _ in range(n_random):
        n = rng.choice(sizes)
        p = rng.choice([0.5, 0.8, 1.0])
        adj = [[0] * n for _ in range(n)]
        for u in range(n):
            for v in range(u + 1, n):
                if rng.random() < p:
                    adj[u][v] = adj[v][u] = 1
        init = ["S"] * n
        for u in rng.sample(range(n), rng.choice([1, 1, 2])):
            init[u] = "I"
        if rng.random() < 0.3:
            c = [u for u in range(n) if init[u] == "S"]
            if c:
                init[rng.choice(c)] = "R"
        dur = [rng.randint(50, 1000) for _ in range(n)]
        delay = [[0 if u == v else (rng.randint(1, 1400)) for v in range(n)] for u in range(n)]
        for u in range(n):
            for v in range(n):
                if delay[u][v] == dur[u]:
                    delay[u][v] += 1
        tmin = rng.choice([0, 0, 100])
        tmax = rng.choice([INF, INF, tmin + 900])
        out.append({"n": n, "adj": adj, "init": init, "delay": delay, "dur": dur, "tmin": tmin, "tmax": tmax})
    return out

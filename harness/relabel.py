"""Label maps and insertion orders for C14."""
import random as pyrandom


def label_maps(n, rng):
    """[(kind, [label of spec node 1..n])]"""
    perm = list(range(n))
    rng.shuffle(perm)
    out = [
        ("identity", list(range(1, n + 1))),
        ("permuted-ints", [perm[i] for i in range(n)]),          # 0..n-1 permuted: includes the falsy label 0
        ("zero-based-ints", list(range(n))),
        ("negative-ints", [-(3 * i + 2) for i in range(n)]),
        ("strings", ["node_%s" % "zyxwvutsrqponm"[i % 14] * (1 + i // 14) for i in range(n)]),
        ("tuples", [(i % 2, "t", n - i) for i in range(n)]),
        ("frozensets", [frozenset([i, i + 100]) for i in range(n)]),
        ("mixed", [(i if i % 3 == 0 else ("s%d" % i if i % 3 == 1 else (i, i))) for i in range(n)]),
    ]
    return out


def orders(n, edges, rng, k=2):
    """[(kind, node order (spec ids), edge order)]"""
    nodes = list(range(1, n + 1))
    out = [("identity-order", nodes, list(edges)), ("reversed-order", nodes[::-1], [(v, u) for (u, v) in reversed(edges)])]
    for j in range(k):
        a = nodes[:]
        rng.shuffle(a)
        b = [(v, u) if rng.random() < 0.5 else (u, v) for (u, v) in edges]
        rng.shuffle(b)
        out.append(("shuffled-order-%d" % j, a, b))
    return out


def build_graph(n, node_order, edge_order, labels):
    import networkx as nx
    G = nx.Graph()
    for u in node_order:
        G.add_node(labels[u - 1])
    for (u, v) in edge_order:
        G.add_edge(labels[u - 1], labels[v - 1])
    return G

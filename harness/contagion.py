"""Scenarios and replay for Gillespie_simple_contagion (C03)."""
import itertools
import random as pyrandom

import os
from .common import RATE_UNIT
from . import observe, walk
from .scripted import run_scripted

# the entry point the scenarios are replayed into: Gillespie_simple_contagion (C03) or, for the extra check X03, its legacy
# wrapper Gillespie_Arbitrary (same signature, documented as "calls Gillespie_simple_contagion")
ENTRY = os.environ.get("EON_VERIF_CONTAGION_ENTRY", "Gillespie_simple_contagion")


def entry_call(EoN, *a, **kw):
    if ENTRY == "Gillespie_simple_contagion":
        return EoN.Gillespie_simple_contagion(*a, **kw)
    import contextlib
    import io
    with contextlib.redirect_stdout(io.StringIO()):      # the legacy wrapper prints a deprecation notice on every call
        return getattr(EoN, ENTRY)(*a, **kw)

SG = {}   # scenario index -> {st: [(key, rate, st2)]}
SCN = []

MODELS = {
    "SIS": (["S", "I"], [("I", "S", 2)], [("I", "S", "I", 1)]),
    "SIR": (["S", "I", "R"], [("I", "R", 1)], [("I", "S", "I", 2)]),
    "SIRS": (["S", "I", "R"], [("I", "R", 2), ("R", "S", 1)], [("I", "S", "I", 2)]),
    "SEIR": (["S", "E", "I", "R"], [("E", "I", 2), ("I", "R", 1)], [("I", "S", "E", 2)]),
    "SIRV": (["S", "I", "R", "V"], [("I", "R", 1), ("S", "V", 1)], [("I", "S", "I", 2)]),
    "compete": (["S", "A", "B"], [("A", "S", 1), ("B", "S", 2)], [("A", "S", "A", 2), ("B", "S", "B", 1)]),
    "cooperate": (["SS", "IS", "SI", "II"], [("IS", "SS", 1), ("II", "SI", 1), ("SI", "SS", 2)],
                  [("IS", "SS", "IS", 1), ("II", "SS", "IS", 2), ("SI", "SS", "SI", 1), ("SI", "IS", "II", 4), ("II", "IS", "II", 1)]),
    "selfkind": (["A", "B"], [("B", "A", 1)], [("A", "A", "B", 1), ("B", "A", "B", 2)]),
    "cure": (["S", "I"], [], [("I", "S", "I", 2), ("S", "I", "S", 1)]),
    "spont-only": (["S", "I", "R"], [("S", "I", 1), ("I", "R", 2), ("R", "S", 1)], []),
}


def graphs3(directed):
    out = []
    pairs = [(1, 2), (1, 3), (2, 3)]
    if not directed:
        for bits in itertools.product((0, 1), repeat=3):
            adj = [[0] * 3 for _ in range(3)]
            for (u, v), b in zip(pairs, bits):
                if b:
                    adj[u - 1][v - 1] = adj[v - 1][u - 1] = 1
            out.append(adj)
    else:
        arcs = [(u, v) for u in range(1, 4) for v in range(1, 4) if u != v]
        for bits in itertools.product((0, 1), repeat=6):
            adj = [[0] * 3 for _ in range(3)]
            for (u, v), b in zip(arcs, bits):
                if b:
                    adj[u - 1][v - 1] = 1
            out.append(adj)
    return out


def make_scenarios(tier, seed):
    rng = pyrandom.Random(seed + 31)
    scn = []
    models = dict(MODELS)
    # generated specifications over 3 statuses
    for k in range(6 if tier == "quick" else 40):
        sts = ["X", "Y", "Z"]
        sp = []
        for a in sts:
            for b in sts:
                if a != b and rng.random() < 0.3:
                    sp.append((a, b, rng.choice([1, 2])))
        ind = []
        for a in sts:
            for b in sts:
                for c in sts:
                    if c != b and rng.random() < 0.15:
                        ind.append((a, b, c, rng.choice([1, 2])))
        # the induced-transition graph is a DiGraph: one target pair per source pair
        seen = set()
        ind2 = []
        for t in ind:
            if (t[0], t[1], t[2]) not in seen:
                seen.add((t[0], t[1], t[2]))
                ind2.append(t)
        models["gen%d" % k] = (sts, sp, ind2)
    und = graphs3(False)
    dig = graphs3(True)
    for mname, (sts, sp, ind) in models.items():
        for directed in (False, True):
            gs = und if not directed else (rng.sample(dig, 6 if tier == "quick" else 24) + [dig[-1]])
            if tier == "quick" and not directed:
                gs = [und[3], und[5], und[6], und[7]]
            for adj in gs:
                for wmode in ("none", "label", "function"):
                    if tier == "quick" and wmode != "none" and rng.random() < 0.5:
                        continue
                    n = 3
                    spont = []
                    for (a, b, r) in sp:
                        nw = [1] * n if wmode == "none" else [rng.choice([0, 1, 2, 3]) for _ in range(n)]
                        spont.append({"from": a, "to": b, "rate": r, "nw": nw})
                    induced = []
                    for (a, b, c, r) in ind:
                        ew = [[0] * n for _ in range(n)]
                        for u in range(n):
                            for v in range(n):
                                if adj[u][v]:
                                    if wmode == "none":
                                        ew[u][v] = 1
                                    elif wmode == "label" and not directed and v < u:
                                        ew[u][v] = ew[v][u]
                                    else:
                                        ew[u][v] = rng.choice([0, 1, 2, 3])
                        induced.append({"a": a, "b": b, "c": c, "rate": r, "ew": ew})
                    scn.append({"model": mname, "n": n, "statuses": sts, "adj": adj, "directed": 1 if directed else 0,
                                "wmode": wmode, "spont": spont, "induced": induced})
    return scn


def build(scn, status_map=None, scale=1.0):
    """(G, H, J, kwargs) for Gillespie_simple_contagion"""
    import networkx as nx
    sm = (lambda s: s) if status_map is None else (lambda s: status_map[s])
    n = scn["n"]
    G = nx.DiGraph() if scn["directed"] else nx.Graph()
    G.add_nodes_from(range(1, n + 1))
    for u in range(1, n + 1):
        for v in range(1, n + 1):
            if scn["adj"][u - 1][v - 1] and (scn["directed"] or u < v):
                G.add_edge(u, v)
    H = nx.DiGraph()
    J = nx.DiGraph()
    # the spontaneous-transition graph names only the statuses that have a spontaneous transition, unless the scenario
    # lists them all (a status that occurs only in induced transitions need not be a node of H)
    if (scn["n"] + len(scn["spont"]) + sum(map(sum, scn["adj"]))) % 2 == 0:
        for s in scn["statuses"]:
            H.add_node(sm(s))
    calls = []
    for j, t in enumerate(scn["spont"]):
        attrs = {"rate": t["rate"] * RATE_UNIT * scale}
        if scn["wmode"] == "label":
            lab = "nw%d" % j
            for u in range(1, n + 1):
                G.nodes[u][lab] = float(t["nw"][u - 1])
            attrs["weight_label"] = lab
        elif scn["wmode"] == "function":
            def rf(G_, node, _t=t, who=None, **kw):
                calls.append(("spont", node))
                # spontaneous rate functions are called with spont_kwargs (who="spont" when the caller passes KW)
                return float(_t["nw"][node - 1]) if who in (None, "spont") else float(_t["nw"][node - 1]) * 2.0 + 1.0
            attrs["rate_function"] = rf
        H.add_edge(sm(t["from"]), sm(t["to"]), **attrs)
    for j, t in enumerate(scn["induced"]):
        attrs = {"rate": t["rate"] * RATE_UNIT * scale}
        if scn["wmode"] == "label":
            lab = "ew%d" % j
            for (u, v) in G.edges():
                G.edges[u, v][lab] = float(t["ew"][u - 1][v - 1])
            attrs["weight_label"] = lab
        elif scn["wmode"] == "function":
            def rf(G_, source, target, _t=t, who=None, **kw):
                calls.append(("induced", source, target))
                # induced rate functions are called with nbr_kwargs
                return float(_t["ew"][source - 1][target - 1]) if who in (None, "nbr") else float(_t["ew"][source - 1][target - 1]) * 2.0 + 1.0
            attrs["rate_function"] = rf
        J.add_edge((sm(t["a"]), sm(t["b"])), (sm(t["a"]), sm(t["c"])), **attrs)
    return G, H, J, calls


def run_scenario(task):
    import EoN
    i, st0, horizon = task["sc"], tuple(task["st0"]), task["horizon"]
    scn = SCN[i]
    graph = SG.get(i, {})
    n = scn["n"]
    nodes = list(range(1, n + 1))
    smap = None
    if task.get("tuple_statuses"):
        smap = {s: (s, k) for k, s in enumerate(scn["statuses"])}
    inv = {v: k for k, v in smap.items()} if smap else None
    scale = task.get("scale", 1.0)     # a power of two: very slow / very fast models with exact float arithmetic
    G, H, J, calls = build(scn, smap, scale)
    sm = (lambda s: s) if smap is None else (lambda s: smap[s])
    IC = {u: sm(st0[u - 1]) for u in nodes}
    rs = [sm(s) for s in scn["statuses"]]
    tmin = task.get("tmin", 0)
    tmax = tmin + horizon + 0.5
    # user keyword arguments for the two families of rate functions (every other scenario of the function mode)
    KW = dict(spont_kwargs={"who": "spont"}, nbr_kwargs={"who": "nbr"}) if (scn["wmode"] == "function" and i % 2 == 0) else {}

    def fn_full():
        sim = entry_call(EoN, G, H, J, dict(IC), rs, tmin=tmin, tmax=tmax, return_full_data=True, **KW)
        return observe.full_data_observation(sim, nodes)

    def fn_arr():
        return [list(map(float, a)) for a in entry_call(EoN, G, H, J, dict(IC), rs, tmin=tmin, tmax=tmax, **KW)]

    def succ(st):
        return graph.get(st, [])

    def parse(l):
        return parse_obs(l.result, False)

    def real(seed):
        """one run with the real random source: [(time, event key)] up to a horizon of a few expected events"""
        import random
        r0 = sum(x[1] for x in succ(st0)) * RATE_UNIT * scale
        T = tmin + (4.0 / r0 if r0 > 0 else 1.0)
        random.seed(seed)
        try:
            sim = entry_call(EoN, G, H, J, dict(IC), rs, tmin=tmin, tmax=T, return_full_data=True, **KW)
            obs = observe.full_data_observation(sim, nodes)
        except Exception as ex:
            return {"error": ex}
        ev, pr = parse_obs(obs, True)
        if pr:
            return {"error": RuntimeError("%s: %s" % (pr[0]["kind"], pr[0]["detail"]))}
        return {"events": ev, "tmin": tmin, "tmax": T, "error": None}

    def parse_obs(obs, with_times):
        pr = []
        back = (lambda s: s) if inv is None else (lambda s: inv.get(s, s))
        ini = tuple(back(obs["hist"][u][1][0]) for u in nodes)
        if ini != st0:
            return [], [{"kind": "initial-state", "detail": "histories start in %r, requested %r" % (ini, st0)}]
        if obs["trans"] is None:
            return [], [{"kind": "no-transmissions", "detail": repr(obs["trans_err"])}]
        src = {}
        for (t, u, v) in obs["trans"]:
            src.setdefault((t, v), []).append(u)
        ev = []
        ch = observe.changes(obs, nodes)
        times = [c[0] for c in ch]
        if not with_times and times != [tmin + k + 1.0 for k in range(len(times))]:
            return [], [{"kind": "event-times", "detail": "event times %r under a unit-delay clock from tmin=%r" % (times, tmin)}]
        used = 0
        for (t, u, old, new) in ch:
            s = src.get((t, u))
            if s:
                used += len(s)
                ev.append(("N", s[0] if len(s) == 1 else tuple(s), u, back(new)))
            else:
                ev.append(("S", u, 0, back(new)))
        if used != len(obs["trans"]):
            pr.append({"kind": "transmission-without-change", "detail": "transmissions %r, changes %r" % (obs["trans"], ch)})
        if with_times:
            ev = list(zip(times, ev))
        return ev, pr

    cls = "%s|%s|%s" % (scn["model"], "directed" if scn["directed"] else "undirected", scn["wmode"])
    res = walk.walk(fn_full, parse, st0, succ, RATE_UNIT * scale, horizon, max_exp=horizon + 2, max_leaves=task.get("max_leaves", 40000), cls=cls, real=real)
    problems = res["problems"]
    # rate functions are evaluated at set-up only: once per node / ordered neighbour pair
    narr = 0
    statuses = scn["statuses"]
    for r in res["recs"][: task.get("arr_cap", 200)]:
        l = r["leaf"]
        la = run_scripted(fn_arr, l.script, max_exp=horizon + 2)
        narr += 1
        if la.error is not None:
            problems.append({"kind": "exception:%s" % type(la.error).__name__, "cls": cls,
                             "detail": "return_full_data=False raised %r" % (la.error,), "script": l.script})
            continue
        if observe.tape_signature(la.tape) != observe.tape_signature(l.tape):
            problems.append({"kind": "draws-depend-on-return-mode", "cls": cls, "detail": "tapes differ", "script": l.script})
            continue
        st = list(st0)
        rows = [[sum(1 for x in st if x == s) for s in statuses]]
        for e in r["events"]:
            tgt = e[1] if e[0] == "S" else e[2]
            st[tgt - 1] = e[3]
            rows.append([sum(1 for x in st if x == s) for s in statuses])
        want = [[float(tmin + k) for k in range(len(rows))]] + [[float(row[j]) for row in rows] for j in range(len(statuses))]
        if la.result != want:
            problems.append({"kind": "arrays", "cls": cls, "detail": "returned %r, history implies %r" % (la.result, want), "script": l.script})
    for p in problems:
        p.pop("leaf", None)
    return {"problems": problems, "leaves": res["leaves"], "events": res["events"], "nodes": res["nodes"], "arr": narr, "settled": res.get("settled")}

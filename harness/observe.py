"""Reading the API-observable abstract state off EoN return values."""
import math


def full_data_observation(sim, nodes):
    """From a Simulation_Investigation: initial statuses, the time-ordered list of
    status changes, and the transmissions list.  Uses node_history() and
    transmissions() only."""
    hist = {}
    for u in nodes:
        h = sim.node_history(u)
        hist[u] = (list(h[0]), list(h[1]))
    try:
        tr = [tuple(x) for x in sim.transmissions()]
        tr_err = None
    except Exception as ex:  # e.g. EoNError: transmissions were not provided
        tr = None
        tr_err = ex
    return {"hist": hist, "trans": tr, "trans_err": tr_err}


def initial_state(obs, nodes):
    return tuple(obs["hist"][u][1][0] if obs["hist"][u][1] else "?" for u in nodes)


def changes(obs, nodes):
    """[(t, node, old, new)] in time order (stable w.r.t. node order)."""
    out = []
    for u in nodes:
        ts, ss = obs["hist"][u]
        for i in range(1, len(ts)):
            out.append((ts[i], u, ss[i - 1], ss[i]))
    out.sort(key=lambda c: c[0])
    return out


def epidemic_events(obs, nodes, infected="I", susceptible="S"):
    """Event keys ('T', source, target) / ('R', node, 0) in time order, pairing
    each infection with the transmission entry recorded for the same time and
    target.  An infection without an entry gets source None; a change that is
    neither an infection nor a recovery is reported as ('?', node, old, new)."""
    src = {}
    if obs["trans"] is not None:
        for (t, u, v) in obs["trans"]:
            src.setdefault((t, v), []).append(u)
    ev = []
    for (t, u, old, new) in changes(obs, nodes):
        if old == susceptible and new == infected:
            s = src.get((t, u), [None])
            ev.append(("T", s[0] if len(s) == 1 else tuple(s), u))
        elif old == infected and new in ("R", "S"):
            ev.append(("R", u, 0))
        else:
            ev.append(("?", u, old, new))
    return ev


def exp_rates(tape):
    return [t[1] for t in tape if t[0] == "exp"]


def counts_along(st0, events, statuses, sis=False):
    """Rows of per-status counts produced by applying events to st0 (st0 indexed
    by node-1, nodes are 1..N)."""
    st = list(st0)
    rows = [[sum(1 for x in st if x == s) for s in statuses]]
    for e in events:
        if e[0] == "T":
            st[e[2] - 1] = "I"
        elif e[0] == "R":
            st[e[1] - 1] = "S" if sis else "R"
        rows.append([sum(1 for x in st if x == s) for s in statuses])
    return rows


def tape_signature(tape):
    """The part of the tape that must not depend on return_full_data."""
    out = []
    for t in tape:
        if t[0] == "exp":
            out.append(("exp", t[1]))
        elif t[0] in ("cmp", "choice", "sample", "binomial"):
            out.append((t[0], t[2]))
        elif t[0] == "cmpdet":
            out.append(("cmpdet", t[2]))
    return out

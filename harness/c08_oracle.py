"""C08: the spec-derived numeric oracle.

Everything the ODE code is compared with comes out of a TLC run:

* `emit(module, consts, ...)` runs TLC on specs/NetEpi.tla or specs/NetEpiTrees.tla with the
  ACTION_CONSTRAINT `Emit` and loads the printed rate-labelled transitions into a
  `netepi.SpecGraph` (key (w, g, tau, gam) -> {state: [(kind, u, v, rate numerator, state2)]}).
* `Generator(sg, key)` assembles the generator matrix Q of the continuous-time Markov chain of one
  key from those records only (rate = numerator * RATE_UNIT); nothing of the epidemic model is
  restated in Python.  `expected(st0, ...)` is the master-equation solution p0 * expm(Q t)
  projected on the number of S / I / R entries of the state vectors TLC printed.
"""
import json
import os
import re
from concurrent.futures import ThreadPoolExecutor

# one BLAS thread per process: the check parallelises over scenarios with 16 forked workers, and
# multi-threaded BLAS inside each of them only makes them spin on each other (measured: 2 s instead
# of 20 ms per 729-state scenario on a loaded machine)
for _v in ("OPENBLAS_NUM_THREADS", "OMP_NUM_THREADS", "MKL_NUM_THREADS"):
    os.environ.setdefault(_v, "1")

import numpy as np

from . import netepi, tlc
from .common import RATE_UNIT, MachineryFailure

# ------------------------------------------------------------------------------------------------
# fast loader for the "E" records (the generic TLA+ value parser of harness.tlc costs ~0.15 ms per
# record; the records are JSON once << >> are brackets)
# ------------------------------------------------------------------------------------------------
_ninit = re.compile(r"Finished computing initial states: (\d+) distinct state")


def fast_records(stdout, tag="E"):
    out = []
    head = '"%s"' % tag
    buf = None
    depth = 0
    for ln in stdout.split("\n"):
        if buf is None:
            if not ln.startswith("<<"):
                continue
            if not ln[2:].lstrip().startswith(head):
                continue
            buf = []
            depth = 0
        buf.append(ln)
        depth += ln.count("<<") - ln.count(">>")
        if depth <= 0:
            txt = " ".join(buf).replace("<<", "[").replace(">>", "]")
            out.append(json.loads(txt))
            buf = None
    return out


def load_spec_graph(res, n):
    sg = netepi.SpecGraph(n)
    for rec in fast_records(res.stdout, "E"):
        _, w, g, tau, gam, st, st2, ev = rec
        key = (tuple(w), tuple(g), tau, gam)
        d = sg.trans.setdefault(key, {})
        d.setdefault(tuple(st), []).append((ev[0], ev[1], ev[2], ev[3], tuple(st2)))
        sg.ntrans += 1
    m = _ninit.search(res.stdout)
    ninit = int(m.group(1)) if m else 0
    if sg.ntrans != res.generated - ninit:
        raise tlc.TLCError("emitted %d transitions but TLC generated %d successor states"
                           % (sg.ntrans, res.generated - ninit))
    sg.ninit = ninit
    return sg


def tree_consts(n, ew, nw, taus, gams, shape=(), cyclic=False, checkdefs=False, sis=False):
    c = netepi.netepi_constants(n, ew, nw, taus, gams, sis)
    c["Shape"] = set(shape)
    c["Cyclic"] = bool(cyclic)
    c["CheckDefs"] = bool(checkdefs)
    return c


TREE_INVARIANTS = ["TypeOK", "Conserved", "KindFrozen", "TreeShape", "DeadlockIffZeroRate", "ExtinctAtEnd"]
TREE_PROPERTIES = ["InitRefines", "Monotone", "ParamsFrozen", "OneLegalMove"]


def emit_trees(consts, timeout=1800):
    """NetEpiTrees: invariants + emission in the same single-worker run."""
    cfg = tlc.cfg_text(consts, spec="SpecTrees", view="View", action_constraints=["Emit"],
                       invariants=TREE_INVARIANTS, properties=TREE_PROPERTIES)
    res = tlc.run_tlc("NetEpiTrees", cfg, workers=1, timeout=timeout, coverage=True)
    if res.violation:
        raise MachineryFailure("NetEpiTrees violates its own invariants on %r: %s" % (consts, res.violation))
    return load_spec_graph(res, consts["N"]), res


def emit_netepi(consts, timeout=1800):
    cfg = tlc.cfg_text(consts, view="View", action_constraints=["Emit"])
    res = tlc.run_tlc("NetEpi", cfg, workers=1, timeout=timeout, coverage=True)
    return load_spec_graph(res, consts["N"]), res


def run_parallel(jobs, threads=8):
    """jobs: list of (fn, args) each starting one JVM; a few at a time (every JVM is single-worker)."""
    if not jobs:
        return []
    with ThreadPoolExecutor(max_workers=threads) as ex:
        futs = [ex.submit(fn, *args) for fn, args in jobs]
        return [f.result() for f in futs]


# ------------------------------------------------------------------------------------------------
# generator matrix and master equation, from the emitted records only
# ------------------------------------------------------------------------------------------------
class Generator(object):
    def __init__(self, sg, key):
        trans = sg.trans.get(key)
        if trans is None:
            raise MachineryFailure("key %r is not in the emitted state graph" % (key,))
        states = set(trans)
        for lst in trans.values():
            for rec in lst:
                states.add(rec[4])
        self.states = sorted(states)
        self.index = {s: i for i, s in enumerate(self.states)}
        m = len(self.states)
        Q = np.zeros((m, m))
        for s, lst in trans.items():
            i = self.index[s]
            for kind, u, v, num, s2 in lst:
                r = num * RATE_UNIT
                Q[i, self.index[s2]] += r
                Q[i, i] -= r
        self.Q = Q
        self.counts = np.array([[s.count("S"), s.count("I"), s.count("R")] for s in self.states], dtype=float)
        self._pows = {}

    def step_matrix(self, dt):
        """E = expm(Q dt)"""
        if dt not in self._pows:
            from scipy.linalg import expm
            self._pows[dt] = expm(self.Q * dt)
        return self._pows[dt]

    def expected(self, p0, dt, steps):
        """p0: {state: probability}.  Returns array (steps+1, 3): E[#S], E[#I], E[#R] at k*dt
        (p(k dt) = p0 E^k, computed by repeated vector-matrix products)."""
        vec = np.zeros(len(self.states))
        const = np.zeros(3)
        for s, pr in p0.items():
            if s in self.index:
                vec[self.index[s]] += pr
            else:
                # a state TLC printed no transition from or into: it is terminal and unreachable,
                # the chain stays there for ever
                const += pr * np.array([s.count("S"), s.count("I"), s.count("R")], dtype=float)
        E = self.step_matrix(dt)
        out = [vec @ self.counts + const]
        for _ in range(steps):
            vec = vec @ E
            out.append(vec @ self.counts + const)
        return np.array(out)

    def reachable(self, st0, sg, key):
        seen = {st0}
        todo = [st0]
        while todo:
            s = todo.pop()
            for rec in sg.succ(key, s):
                if rec[4] not in seen:
                    seen.add(rec[4])
                    todo.append(rec[4])
        return seen


def pair_index(n):
    return {p: i + 1 for i, p in enumerate(netepi.pair_list(n))}


def shape_of_edges(n, edges):
    """set of NetEpi pair indices (1-based) of an edge list on nodes 1..n"""
    pi = pair_index(n)
    return {pi[(min(u, v), max(u, v))] for u, v in edges}

"""C08: scenario families, drivers of the real ODE code, comparisons.

Python here only (a) turns valuations of the specifications into arguments of the real entry
points, (b) projects the returned arrays, (c) compares them with numbers that came out of TLC
(harness.c08_oracle) or hands them to TLC as traces.  Worker functions are module-level so that
harness.common.pool_map can fork them; the emitted state graphs are inherited through SG.
"""
import copy
import inspect
import itertools
import math
import re

import numpy as np

from . import netepi
from . import c08_oracle as O
from .common import RATE_UNIT

DT, STEPS = 0.5, 8            # report times 0, 0.5, ..., 4
TMAX, TCOUNT = 4.0, 9
TOL_TREE = 1e-5               # clause 1, absolute, on S, I, R (DESIGN: 4e-8 measured on trees, 0.1 on the 4-cycle)
CONTROL_MIN = 1e-2            # the non-tree control must deviate by at least this much
TOL_LIMIT = 1e-6              # clauses 3, 4: times N
TOL_PAIR = 1e-5               # clause 4, times N: two independently integrated solutions through an exponentially growing phase
TOL_PAIR_ADAMS = 1e-4
TOL_ADAMS = 2e-5              # same, for the entry points that integrate with vode/adams at its default rtol = 1e-6
ADAMS = ("SIS_pair_based", "SIS_heterogeneous_pairwise")   # source: analytic.py uses _my_odeint_ for these two systems
S_FLOOR = 1e-3                # clause 4: comparison stops where S(t) <= S_FLOOR*N (singular point of the closures)
TOL_FINAL = 1e-6              # clause 5, on R/N

SG = {}                       # run name -> SpecGraph (filled before the pool forks)
_EON = []


def eon():
    if not _EON:
        from . import common
        _EON.append(common.import_eon())
    return _EON[0]


def is_adams(name):
    return any(name.startswith(a) for a in ADAMS)


# =================================================================================================
# clause 1: SIR_pair_based with a pure initial condition on trees
# =================================================================================================
def placements(n, recovered=True, max_seeds=2):
    """every placement of 1..max_seeds seeds and of zero / one initially recovered node"""
    out = []
    nodes = range(1, n + 1)
    for k in range(1, max_seeds + 1):
        for seeds in itertools.combinations(nodes, k):
            rest = [u for u in nodes if u not in seeds]
            recs = [()] + ([(r,) for r in rest] if recovered else [])
            for rec in recs:
                out.append((seeds, rec))
    return out


def state_of(n, seeds, rec):
    return tuple("I" if u in seeds else ("R" if u in rec else "S") for u in range(1, n + 1))


def rotated(n):
    return list(range(2, n + 1)) + [1]


C1_CLASSES = {
    "sorted": "sorted insertion order, nodelist omitted",
    "nodelist-sorted": "sorted insertion order, explicit nodelist in the same order",
    "rotated-insertion": "permuted insertion order, nodelist omitted",
    "rotated-nodelist": "explicit nodelist in another order than G.nodes()",
    "direct": "SIR_pair_based called with 0/1 arrays Y0, X0 and nodelist",
    "attr-weight": "sorted insertion order, the edge attribute holding the transmission weight is called 'weight' (networkx's default name)",
    "primed-object": "the same Graph object was integrated before while it had another structure (one contact moved) and then edited in place",
}


def c1_entry(cls):
    return "SIR_pair_based" if cls == "direct" else "SIR_pair_based_pure_IC"


def c1_call(n, key, seeds, rec, cls, weighted):
    EoN = eon()
    w, g, tau, gam = key
    order = rotated(n) if cls == "rotated-insertion" else None
    G = netepi.build_graph(n, w, g, order=order)
    kw = dict(tmin=0, tmax=TMAX, tcount=TCOUNT)
    if weighted:
        kw.update(transmission_weight="w", recovery_weight="g")
    if weighted and cls == "sorted" and n >= 3:
        # a contact whose transmission weight is exactly 0 never transmits: adding one between two nodes that are not
        # neighbours leaves the process (and the exactness on the tree of positive-weight contacts) unchanged
        for a in range(1, n + 1):
            for b in range(a + 1, n + 1):
                if not G.has_edge(a, b):
                    G.add_edge(a, b, w=0.0)
                    break
            else:
                continue
            break
    if cls == "attr-weight" and weighted:
        for (a, b) in G.edges():
            G[a][b]["weight"] = G[a][b].pop("w")
        kw["transmission_weight"] = "weight"
    nodelist = None
    if cls in ("nodelist-sorted", "direct"):
        nodelist = list(range(1, n + 1))
    elif cls == "rotated-nodelist":
        nodelist = rotated(n)
    if cls == "primed-object":
        from .common import prime_same_object
        prime_same_object(G, lambda g_: EoN.SIR_pair_based_pure_IC(g_, tau * RATE_UNIT, gam * RATE_UNIT, list(seeds),
                                                                   initial_recovereds=(list(rec) if rec else None), **kw))
    if cls == "direct":
        Y0 = np.array([1 if u in seeds else 0 for u in nodelist])
        X0 = np.array([0 if (u in seeds or u in rec) else 1 for u in nodelist])
        return EoN.SIR_pair_based(G, tau * RATE_UNIT, gam * RATE_UNIT, nodelist=nodelist, Y0=Y0, X0=X0, **kw)
    return EoN.SIR_pair_based_pure_IC(G, tau * RATE_UNIT, gam * RATE_UNIT, list(seeds),
                                      initial_recovereds=(list(rec) if rec else None), nodelist=nodelist, **kw)


def deviation(res, exp, cols=3):
    """max |code - oracle| over the first `cols` series after the time column"""
    d = 0.0
    for c in range(cols):
        a = np.asarray(res[1 + c], dtype=float)
        if a.shape != exp[:, c].shape or not np.all(np.isfinite(a)):
            return float("inf")
        d = max(d, float(np.abs(a - exp[:, c]).max()))
    return d


def c1_task(task):
    """one key of one emitted run: every placement x every class.  Returns compact rows
    (cls, seeds, rec, dev, err, nontrivial)."""
    sg = SG[task["run"]]
    key = task["key"]
    n = sg.n
    gen = O.Generator(sg, key)
    rows = []
    for seeds, rec in placements(n):
        st0 = state_of(n, seeds, rec)
        exp = gen.expected({st0: 1.0}, DT, STEPS)
        nontrivial = bool(exp[-1, 0] < exp[0, 0] - 1e-6)
        for cls in task["classes"]:
            try:
                res = c1_call(n, key, seeds, rec, cls, task["weighted"])
                rows.append((cls, seeds, rec, deviation(res, exp), None, nontrivial))
            except Exception as ex:  # the entry point raised on a consistent input
                rows.append((cls, seeds, rec, float("inf"), "%s: %s" % (type(ex).__name__, str(ex)[:120]), nontrivial))
    return {"run": task["run"], "key": key, "rows": rows, "states": len(gen.states)}


def c1_replay(sg, n, key, seeds, rec, cls, weighted):
    gen = O.Generator(sg, key)
    exp = gen.expected({state_of(n, seeds, rec): 1.0}, DT, STEPS)
    try:
        res = c1_call(n, key, seeds, rec, cls, weighted)
        return {"dev": deviation(res, exp), "code": [np.asarray(x).tolist() for x in res[1:4]], "oracle": exp.T.tolist()}
    except Exception as ex:
        return {"dev": float("inf"), "error": "%s: %s" % (type(ex).__name__, ex), "oracle": exp.T.tolist()}


# =================================================================================================
# degree distributions and graphs shared by clauses 2 and 5
# =================================================================================================
def _norm(d):
    s = float(sum(d.values()))
    return {k: v / s for k, v in d.items()}


PKS = {
    "regular3": {3: 1.0},
    "bimodal_1_5": {1: 0.5, 5: 0.5},
    "poisson3": _norm({k: math.exp(-3.0) * 3.0 ** k / math.factorial(k) for k in range(0, 13)}),
    "powerlaw2": _norm({k: float(k) ** -2 for k in range(1, 16)}),
    "deg_0_2_4": {0: 0.25, 2: 0.5, 4: 0.25},
    "uniform_1_6": {k: 1.0 / 6 for k in range(1, 7)},
    "sparse_1_2": {1: 0.75, 2: 0.25},
}


def graphs():
    import networkx as nx
    out = {
        "path6": nx.path_graph(6), "star6": nx.star_graph(5), "cycle6": nx.cycle_graph(6), "K4": nx.complete_graph(4),
        "petersen": nx.petersen_graph(), "grid3x3": nx.convert_node_labels_to_integers(nx.grid_2d_graph(3, 3)),
        "barbell": nx.barbell_graph(4, 2), "lollipop": nx.lollipop_graph(4, 3),
        "reg3_10a": nx.random_regular_graph(3, 10, seed=1), "reg3_10b": nx.random_regular_graph(3, 10, seed=2),
        "tree_r2h3": nx.balanced_tree(2, 3),
    }
    # networks with isolated (degree-0) nodes: they can never be infected and stay susceptible for ever
    g = nx.path_graph(6)
    g.add_nodes_from([6, 7])
    out["path6+2isolated"] = g
    g = nx.petersen_graph()
    g.add_nodes_from([10, 11, 12])
    out["petersen+3isolated"] = g
    return out


def psi_funcs(Pk, Sk0=None):
    if Sk0 is None:
        Sk0 = {k: 1.0 for k in Pk}

    def psihat(x):
        return sum(Pk[k] * Sk0[k] * x ** k for k in Pk)

    def psihatPrime(x):
        return sum(k * Pk[k] * Sk0[k] * x ** (k - 1) for k in Pk if k > 0)
    return psihat, psihatPrime


def sk0_of(Pk, kind):
    """degree-dependent initial susceptibility profiles (probability a degree-k node is susceptible)"""
    ks = sorted(Pk)
    if kind == "flat90":
        return {k: 0.9 for k in ks}
    if kind == "hubs":        # high degrees more often non-susceptible
        m = float(max(ks) or 1)
        return {k: 1.0 - 0.5 * k / m for k in ks}
    if kind == "leaves":
        m = float(max(ks) or 1)
        return {k: 0.5 + 0.45 * k / m for k in ks}
    raise KeyError(kind)


# =================================================================================================
# clause 2: EBCM_discrete*: R(t+1) = R(t) + I(t), validated by TLC as traces of DiscreteFlow
# =================================================================================================
FP_POP = 10 ** 8        # the population in fixed-point units
FP_EPS = 100            # 1e-6 * N


def c2_scenarios(tier):
    ps = [0.0, 0.25, 0.75, 1.0] if tier == "quick" else [0.0, 0.25, 0.5, 0.75, 1.0]
    rhos = [0.01, 0.5] if tier == "quick" else [0.01, 0.1, 0.5]
    tmaxs = [5, 20] if tier == "quick" else [1, 5, 20, 40]
    out = []
    for pk in sorted(PKS):
        for p in ps:
            for tmax in tmaxs:
                for rho in rhos:
                    for full in (False, True):
                        out.append({"entry": "EBCM_discrete_uniform_introduction", "pk": pk, "p": p, "rho": rho, "tmax": tmax, "N": 1000, "full": full})
                for prof in ("flat90", "hubs", "leaves"):
                    for (phiR0, r0) in ((0.0, 0.0), (0.125, 0.05)):
                        for tmin in (0, 2):
                            out.append({"entry": "EBCM_discrete", "pk": pk, "p": p, "sk0": prof, "phiR0": phiR0, "r0": r0,
                                        "tmin": tmin, "tmax": tmin + tmax, "N": 500, "full": bool(tmin)})
    gs = graphs()
    for gname in sorted(gs):
        G = gs[gname]
        nodes = sorted(G.nodes())
        sets = [([nodes[0]], None), ([nodes[0], nodes[-1]], None), ([nodes[1]], [nodes[0]]), ([nodes[0]], [nodes[-1], nodes[-2]])]
        for p in ps:
            for tmax in tmaxs:
                for rho in rhos + [None]:
                    out.append({"entry": "EBCM_discrete_from_graph", "graph": gname, "p": p, "rho": rho, "tmax": tmax, "tmin": 0, "full": False})
                    out.append({"entry": "EBCM_pref_mix_discrete_from_graph", "graph": gname, "p": p, "rho": rho, "tmax": tmax, "full": rho is None})
                    out.append({"entry": "EBCM_pref_mix_discrete", "graph": gname, "p": p, "rho": rho, "tmax": tmax, "full": False})
                for inf, rec in sets:
                    for tmin in (0, 3):
                        out.append({"entry": "EBCM_discrete_from_graph", "graph": gname, "p": p, "inf": inf, "rec": rec,
                                    "tmax": tmin + tmax, "tmin": tmin, "full": bool(tmin)})
    for i, d in enumerate(out):
        d["id"] = i
    return out


def c2_call(d):
    EoN = eon()
    e = d["entry"]
    if e == "EBCM_discrete_uniform_introduction":
        Pk = PKS[d["pk"]]
        psi, psiP = psi_funcs(Pk)
        N = d["N"]
        r = EoN.EBCM_discrete_uniform_introduction(N, psi, psiP, d["p"], d["rho"], tmax=d["tmax"], return_full_data=d["full"])
    elif e == "EBCM_discrete":
        Pk = PKS[d["pk"]]
        Sk0 = sk0_of(Pk, d["sk0"])
        # a fraction r0 of the population starts recovered: scale the susceptible profile accordingly
        psihat, psihatP = psi_funcs(Pk, Sk0)
        N = d["N"]
        kave = sum(k * Pk[k] for k in Pk)
        phiS0 = psihatP(1) / kave * (1 - d["phiR0"])
        r = EoN.EBCM_discrete(N, psihat, psihatP, d["p"], phiS0, phiR0=d["phiR0"], R0=d["r0"] * N, tmin=d["tmin"],
                              tmax=d["tmax"], return_full_data=d["full"])
    else:
        G = graphs()[d["graph"]]
        N = G.order()
        if e == "EBCM_discrete_from_graph":
            if "inf" in d:
                r = EoN.EBCM_discrete_from_graph(G, d["p"], initial_infecteds=d["inf"], initial_recovereds=d["rec"],
                                                 tmin=d["tmin"], tmax=d["tmax"], return_full_data=d["full"])
            else:
                r = EoN.EBCM_discrete_from_graph(G, d["p"], rho=d["rho"], tmin=d["tmin"], tmax=d["tmax"], return_full_data=d["full"])
        elif e == "EBCM_pref_mix_discrete_from_graph":
            r = EoN.EBCM_pref_mix_discrete_from_graph(G, d["p"], rho=d["rho"], tmax=d["tmax"], return_full_data=d["full"])
        elif e == "EBCM_pref_mix_discrete":
            r = EoN.EBCM_pref_mix_discrete(N, EoN.get_Pk(G), EoN.get_Pnk(G), d["p"], rho=d["rho"], tmax=d["tmax"],
                                           return_full_data=d["full"])
        else:
            raise KeyError(e)
    return N, r


def to_fixed(N, res):
    t, S, I, R = [np.asarray(x, dtype=float) for x in res[:4]]
    if not (len(t) == len(S) == len(I) == len(R)) or not all(np.all(np.isfinite(x)) for x in (t, S, I, R)):
        return None
    f = FP_POP / float(N)
    rows = []
    for k in range(len(t)):
        tk = t[k]
        if abs(tk - round(tk)) > 1e-9:
            return None
        rows.append([int(round(tk)), int(round(S[k] * f)), int(round(I[k] * f)), int(round(R[k] * f))])
    return rows


def c2_task(d):
    try:
        N, res = c2_call(d)
    except Exception as ex:
        return {"id": d["id"], "err": "%s: %s" % (type(ex).__name__, str(ex)[:120])}
    rows = to_fixed(N, res)
    if rows is None:
        return {"id": d["id"], "err": "non-finite or non-integer-time output"}
    nontrivial = any(r[2] > FP_EPS for r in rows[1:]) and rows[-1][1] < rows[0][1] - FP_EPS
    return {"id": d["id"], "N": N, "rows": rows, "nontrivial": bool(nontrivial), "t0": rows[0][0]}


def traces_module(traces):
    """traces: list of row lists -> text of module C08Traces"""
    parts = []
    for rows in traces:
        rs = ", ".join("<<%d, %d, %d, %d>>" % tuple(r) for r in rows)
        parts.append("[pop |-> %d, eps |-> %d, rows |-> <<%s>>]" % (FP_POP, FP_EPS, rs))
    return ("---- MODULE C08Traces ----\nEXTENDS Integers\nTraces == <<\n" + ",\n".join(parts) + "\n>>\n====\n")


def corrupt_R_shift(rows):
    """the canary: R updated one step late (R(t+1) = R(t) + I(t-1)); must be rejected"""
    out = [list(r) for r in rows]
    for k in range(len(out) - 1, 1, -1):
        out[k][3] = rows[k - 1][3]
        out[k][2] = FP_POP - out[k][1] - out[k][3]
    return out


# =================================================================================================
# clauses 3 and 4: the table of ODE entry points, built from the signatures
# =================================================================================================
def ode_table():
    """{name: parameter list} of every public function of EoN.analytic that takes tau and gamma and
    belongs to a SIS_/SIR_/EBCM family (the discrete-time ones take p and drop out)."""
    from EoN import analytic
    out = {}
    for name, f in inspect.getmembers(analytic, inspect.isfunction):
        if f.__module__ != "EoN.analytic" or name.startswith("_"):
            continue
        ps = list(inspect.signature(f).parameters)
        if "tau" in ps and "gamma" in ps and re.match(r"(SIS|SIR|EBCM)", name):
            out[name] = ps
    return out


def modes_of(ps):
    """call modes of a graph-taking entry point, from its signature"""
    if ps[0] != "G":
        return []
    m = []
    if "rho" in ps:
        m.append("rho")
    if "initial_infecteds" in ps:
        m.append("set")
        if "initial_recovereds" in ps:
            m.append("set+rec")
    if "Y0" in ps and "nodelist" in ps:
        m.append("Y0")
    if "transmission_weight" in ps:
        m += [x + "/weighted" for x in list(m)]
    return m


def is_sir(name):
    return not name.startswith("SIS")


def call_graph_entry(name, G, tau, gamma, mode, nodes, seeds, rec, rho):
    """nodes: the labels in G's order.  Returns the entry point's return value."""
    EoN = eon()
    f = getattr(EoN, name)
    # the relations are invariant under a shift of the time axis: the start time varies with the scenario
    # (0, a positive non-integer, a negative one); the report grid keeps its spacing
    t0 = (0.0, 2.5, -1.5)[(len(seeds) + 2 * len(rec) + (1 if rho == 0.5 else 0)) % 3]
    kw = dict(tmin=t0, tmax=t0 + TMAX, tcount=TCOUNT)
    base = mode.split("/")[0]
    if mode.endswith("/weighted"):
        kw.update(transmission_weight="w", recovery_weight="g")
    if base == "rho":
        kw["rho"] = rho
        return f(G, tau, gamma, **kw)
    if base == "set":
        return f(G, tau, gamma, initial_infecteds=list(seeds), **kw)
    if base == "set+rec":
        return f(G, tau, gamma, initial_infecteds=list(seeds), initial_recovereds=list(rec), **kw)
    if base == "Y0":
        Y0 = np.array([1.0 if u in seeds else 0.0 for u in nodes])
        kw.update(nodelist=list(nodes), Y0=Y0)
        if rec and "X0" in inspect.signature(f).parameters:
            kw["X0"] = np.array([0.0 if (u in seeds or u in rec) else 1.0 for u in nodes])
        return f(G, tau, gamma, **kw)
    raise KeyError(mode)


def limit_scenarios(name, ps, n, tier):
    """(mode, seeds, rec, rho) for one entry point on an n-node graph; labels are 0..n-1"""
    out = []
    sir = is_sir(name)
    for mode in modes_of(ps):
        base = mode.split("/")[0]
        if base == "rho":
            for rho in (0.25, 0.5):
                out.append((mode, (), (), rho))
        else:
            for seeds, rec in placements(n, recovered=sir):
                seeds = tuple(u - 1 for u in seeds)
                rec = tuple(u - 1 for u in rec)
                if base == "set" and rec:
                    continue
                if base == "set+rec" and not rec:
                    continue
                if base == "Y0" and rec and "X0" not in ps:
                    continue
                if len(seeds) + len(rec) == n:
                    continue      # no susceptible node left: outside the family (DESIGN C06: at least one susceptible node)
                out.append((mode, seeds, rec, None))
    return out


def graph_of_key(n, key):
    """the spec valuation as a networkx graph with labels 0..n-1 in sorted insertion order (edge attribute 'w',
    node attribute 'g'); label-dependent indexing of some entry points is C14's subject, not C08's"""
    w, g = key[0], key[1]
    return netepi.build_graph(n, w, g, labels={u: u - 1 for u in range(1, n + 1)})


SURV = {}     # (SIS?, g, gam) -> survival of the one-node chain at the report times (from the one-node dumps)


def c3_expected(name, n, key, mode, seeds, rho, res):
    """expected S(t), I(t) of clause 3 from the spec's one-node survival function.
    Unweighted calls: the entry point's own row 0 scaled by the survival function; weighted calls: the
    scenario's per-node initial probabilities with each node's own recovery rate."""
    w, g, _, gam = key
    sir = is_sir(name)
    S = np.asarray(res[1], dtype=float)
    I = np.asarray(res[2], dtype=float)
    if mode.endswith("/weighted"):
        if mode.startswith("rho"):
            y0 = [rho] * n
        else:
            y0 = [1.0 if u in seeds else 0.0 for u in range(n)]
        eI = sum(y0[u] * SURV[(not sir, g[u], gam)] for u in range(n))
        i0 = sum(y0)
    else:
        eI = I[0] * SURV[(not sir, 1, gam)]
        i0 = I[0]
    eS = np.full(len(eI), S[0]) if sir else S[0] + (i0 - eI)
    return eS, eI, i0


def _finite(*arrs):
    return all(np.all(np.isfinite(np.asarray(a, dtype=float))) for a in arrs)


def c3_task(task):
    """tau = 0.  task: name, n, key (w, g, 0, gam), scenarios.  Rows are dicts:
    mode, seeds, rec, rho, dS, dI, i0, err (message, also raises with tau=1?), nonfinite
    ("generic": also non-finite with tau=1, i.e. the closure is undefined on this input; "limit"), note"""
    name, n, key = task["name"], task["n"], task["key"]
    weighted_graph = any(x != 1 for x in key[0] if x) or any(x != 1 for x in key[1])
    G = graph_of_key(n, key)
    gamma = key[3] * RATE_UNIT
    nodes = list(range(n))
    rows = []
    for (mode, seeds, rec, rho) in task["scenarios"]:
        if weighted_graph and not mode.endswith("/weighted"):
            continue
        row = {"mode": mode, "seeds": seeds, "rec": rec, "rho": rho, "dS": float("inf"), "dI": float("inf"), "i0": 0.0,
               "err": None, "nonfinite": None, "note": None}
        try:
            res = call_graph_entry(name, G, 0.0, gamma, mode, nodes, seeds, rec, rho)
        except Exception as ex:
            err = "%s: %s" % (type(ex).__name__, str(ex)[:100])
            try:   # is the failure specific to the limit?
                call_graph_entry(name, G, 1.0, gamma, mode, nodes, seeds, rec, rho)
                generic = False
            except Exception:
                generic = True
            row["err"] = (err, generic)
            rows.append(row)
            continue
        if not _finite(res[1], res[2]):
            try:
                r1 = call_graph_entry(name, G, 1.0, gamma, mode, nodes, seeds, rec, rho)
                row["nonfinite"] = "limit" if _finite(r1[1], r1[2]) else "generic"
            except Exception:
                row["nonfinite"] = "generic"
            rows.append(row)
            continue
        eS, eI, i0 = c3_expected(name, n, key, mode, seeds, rho, res)
        S = np.asarray(res[1], dtype=float)
        I = np.asarray(res[2], dtype=float)
        if S.shape == eS.shape:
            row["dS"] = float(np.abs(S - eS).max())
            row["dI"] = float(np.abs(I - eI).max())
        row["i0"] = float(I[0])
        if mode.endswith("/weighted") and abs(I[0] - i0) > 1e-9:
            row["note"] = "row 0 has I(0)=%r where the scenario has %r (initial-condition matter, C06)" % (float(I[0]), i0)
        rows.append(row)
    return {"name": name, "n": n, "key": key, "rows": rows}


# -- base functions (numeric initial conditions): arguments recorded from the wrapper's own call -------------
def spy_bases(table):
    """names of the table's entry points that do not take a graph"""
    return [nm for nm, ps in table.items() if ps[0] != "G"]


def record_base_calls(bases, thunk):
    """run thunk() with every base function wrapped by a recorder; returns {base: (args, kwargs)}
    (first call only).  The wrappers resolve the base functions through the module globals of
    EoN.analytic, so replacing the module attribute is enough."""
    from EoN import analytic
    rec = {}
    orig = {}

    def make(nm, fn):
        def spy(*a, **k):
            if nm not in rec:
                rec[nm] = (copy.deepcopy(a), copy.deepcopy(k))
            return fn(*a, **k)
        return spy
    for nm in bases:
        orig[nm] = getattr(analytic, nm)
        setattr(analytic, nm, make(nm, orig[nm]))
    try:
        try:
            thunk()
        except Exception:
            pass
    finally:
        for nm, fn in orig.items():
            setattr(analytic, nm, fn)
    return rec


def with_rates(name, ps, args, kwargs, tau, gamma):
    """the recorded call with tau / gamma and the report grid replaced"""
    a = list(copy.deepcopy(args))
    k = dict(copy.deepcopy(kwargs))
    for pname, val in (("tau", tau), ("gamma", gamma), ("tmin", 0), ("tmax", TMAX), ("tcount", TCOUNT)):
        if pname not in ps:
            continue
        i = ps.index(pname)
        if i < len(a):
            a[i] = val
        else:
            k[pname] = val
    return a, k


def c3_base_task(task):
    """direct calls of the base functions with the arguments their *_from_graph wrapper passes.
    task: wrapper, n, key, mode, seeds, rec, rho, bases, table"""
    EoN = eon()
    n, key = task["n"], task["key"]
    G = graph_of_key(n, key)
    gamma = key[3] * RATE_UNIT
    nodes = list(range(n))
    mode, seeds, rec, rho = task["scenario"]
    recd = record_base_calls(task["bases"], lambda: call_graph_entry(task["wrapper"], G, 0.0, gamma, mode, nodes, seeds, rec, rho))
    rows = []
    for base, (a, k) in sorted(recd.items()):
        ps = task["table"][base]
        rows.append(_base_row(EoN, base, ps, a, k, gamma, key, task["wrapper"], mode))
        for alias in task.get("aliases", {}).get(base, []):
            rows.append(_base_row(EoN, alias, task["table"][alias], a, k, gamma, key, task["wrapper"], mode))
    return {"rows": rows, "task": {k2: v for k2, v in task.items() if k2 not in ("table", "bases", "aliases")}}


def _base_row(EoN, base, ps, a, k, gamma, key, wrapper, mode):
    a2, k2 = with_rates(base, ps, a, k, 0.0, gamma)
    try:
        res = getattr(EoN, base)(*a2, **k2)
        S = np.asarray(res[1], dtype=float)
        I = np.asarray(res[2], dtype=float)
        sir = is_sir(base)
        surv = SURV[(not sir, 1, key[3])]
        eI = I[0] * surv
        eS = np.full(len(eI), S[0]) if sir else S[0] + (I[0] - eI)
        if not _finite(S, I):
            a3, k3 = with_rates(base, ps, a, k, 1.0, gamma)
            try:
                r1 = getattr(EoN, base)(*a3, **k3)
                kind = "nonfinite-limit" if _finite(r1[1], r1[2]) else "nonfinite-generic"
            except Exception:
                kind = "nonfinite-generic"
            return (base, wrapper, mode, float("inf"), float("inf"), kind, 0.0)
        if S.shape != eS.shape:
            return (base, wrapper, mode, float("inf"), float("inf"), None, 0.0)
        return (base, wrapper, mode, float(np.abs(S - eS).max()), float(np.abs(I - eI).max()), None, float(I[0]))
    except Exception as ex:
        return (base, wrapper, mode, float("inf"), float("inf"), "%s: %s" % (type(ex).__name__, str(ex)[:100]), 0.0)


# -- entry points without a graph and without a wrapper ----------------------------------------------------
def nograph_calls(name, G, tau, gamma, rho):
    """EBCM_uniform_introduction / EBCM_pref_mix: arguments from the library's own public helpers"""
    EoN = eon()
    N = G.order()
    Pk = EoN.get_Pk(G)
    if name == "EBCM_uniform_introduction":
        psi, psiP = psi_funcs(Pk)
        return EoN.EBCM_uniform_introduction(N, psi, psiP, tau, gamma, rho, tmin=0, tmax=TMAX, tcount=TCOUNT)
    if name == "EBCM_pref_mix":
        return EoN.EBCM_pref_mix(N, Pk, EoN.get_Pnk(G), tau, gamma, rho=rho, tmin=0, tmax=TMAX, tcount=TCOUNT)
    raise KeyError(name)


# =================================================================================================
# clause 4: gamma = 0, SIS_X versus SIR_X
# =================================================================================================
def families(table):
    """X such that both SIS_X and SIR_X are graph-taking entry points; the super-compact pair is
    excluded by the property's own statement."""
    out = []
    for nm in sorted(table):
        if nm.startswith("SIS_"):
            x = nm[4:]
            if "SIR_" + x in table and "super_compact" not in x:
                out.append(x)
    return out


def c4_task(task):
    """gamma = 0.  task: family X, n, key (w, g, tau, 0), scenarios (mode, seeds, rec, rho) common to both
    signatures.  Rows are dicts: mode, seeds, rho, dev, compared (number of report times compared), truncated,
    errs {entry: message}, nonfinite (None / "generic" / "limit"), nontrivial"""
    x, n, key = task["family"], task["n"], task["key"]
    G = graph_of_key(n, key)
    tau = key[2] * RATE_UNIT
    nodes = list(range(n))
    weighted_graph = any(v != 1 for v in key[0] if v) or any(v != 1 for v in key[1])
    rows = []
    for (mode, seeds, rec, rho) in task["scenarios"]:
        if weighted_graph and not mode.endswith("/weighted"):
            continue
        row = {"mode": mode, "seeds": seeds, "rho": rho, "dev": float("inf"), "compared": 0, "truncated": False,
               "errs": None, "nonfinite": None, "nontrivial": False}
        out = {}
        errs = {}
        for nm in ("SIS_" + x, "SIR_" + x):
            try:
                out[nm] = call_graph_entry(nm, G, tau, 0.0, mode, nodes, seeds, rec, rho)
            except Exception as ex:
                errs[nm] = "%s: %s" % (type(ex).__name__, str(ex)[:100])
        if errs:
            row["errs"] = errs
            rows.append(row)
            continue
        S1 = np.asarray(out["SIS_" + x][1], dtype=float)
        S2 = np.asarray(out["SIR_" + x][1], dtype=float)
        if not _finite(S1, S2):
            row["nonfinite"] = "generic"
            try:
                r1 = call_graph_entry("SIS_" + x, G, tau, 1.0, mode, nodes, seeds, rec, rho)
                r2 = call_graph_entry("SIR_" + x, G, tau, 1.0, mode, nodes, seeds, rec, rho)
                if _finite(r1[1], r2[1]):
                    row["nonfinite"] = "limit"
            except Exception:
                pass
        elif S1.shape == S2.shape:
            # the closures divide by [S]; where S reaches 0 in finite time the integrators run through a singular
            # point and neither output solves the model any more: compare on the prefix of the report grid on which
            # both S(t) > S_FLOOR * N
            ok = (S1 > S_FLOOR * n) & (S2 > S_FLOOR * n)
            m = len(S1) if ok.all() else int(np.argmin(ok))
            row["compared"] = m
            row["truncated"] = m < len(S1)
            row["dev"] = float(np.abs(S1[:m] - S2[:m]).max()) if m else 0.0
            row["nontrivial"] = bool(m > 1 and S1[m - 1] < S1[0] - 1e-6)
        rows.append(row)
    return {"family": x, "n": n, "key": key, "rows": rows}


# =================================================================================================
# clause 5: attack rates versus the long-time limit of EBCM / EBCM_discrete  (plain numerics)
# =================================================================================================
def c5_scenarios(tier):
    out = []
    rates = [(0.5, 1.0), (2.0, 1.0), (1.0, 0.5)]
    ps = [0.25, 0.5, 1.0]
    rhos = [0.001, 0.1, 0.5]
    if tier != "quick":
        rates += [(1.0, 1.0), (0.25, 1.0), (4.0, 1.0), (1.0, 2.0), (0.5, 0.5)]
        ps += [0.75, 0.125, 0.9]
        rhos += [0.01, 0.25, 0.9]
    for pk in sorted(PKS):
        for rho in rhos:
            for tau, gamma in rates:
                out.append({"kind": "cts/rho", "pk": pk, "rho": rho, "tau": tau, "gamma": gamma})
            for p in ps:
                out.append({"kind": "discrete/rho", "pk": pk, "rho": rho, "p": p})
        for prof in ("flat90", "hubs", "leaves"):
            for phiR0 in (0.0, 0.125):
                for tau, gamma in rates:
                    out.append({"kind": "cts/Sk0", "pk": pk, "sk0": prof, "phiR0": phiR0, "tau": tau, "gamma": gamma})
                for p in ps:
                    out.append({"kind": "discrete/Sk0", "pk": pk, "sk0": prof, "phiR0": phiR0, "p": p})
    gs = graphs()
    for gname in sorted(gs):
        nodes = sorted(gs[gname].nodes())
        for rho in (0.01, 0.1, 0.5):
            for tau, gamma in rates[:3]:
                out.append({"kind": "cts/graph-rho", "graph": gname, "rho": rho, "tau": tau, "gamma": gamma})
            for p in ps[:3]:
                out.append({"kind": "discrete/graph-rho", "graph": gname, "rho": rho, "p": p})
        for inf, rec in (([nodes[0]], None), ([nodes[0], nodes[-1]], [nodes[1]])):
            out.append({"kind": "cts/graph-set", "graph": gname, "inf": inf, "rec": rec, "tau": 1.0, "gamma": 1.0})
            out.append({"kind": "discrete/graph-set", "graph": gname, "inf": inf, "rec": rec, "p": 0.5})
    for i, d in enumerate(out):
        d["id"] = i
    return out


ITS = 2000


def _long_time(run, N, discrete):
    """R/N at a horizon where I < 1e-9 N; doubles the horizon until then"""
    T = 64
    while T <= 2 ** 22:
        res = run(T)
        I = np.asarray(res[2], dtype=float)
        R = np.asarray(res[3], dtype=float)
        if not np.isfinite(I[-1]) or not np.isfinite(R[-1]):
            return None, T, float("nan")
        if abs(I[-1]) < 1e-9 * N:
            return float(R[-1]) / N, T, float(I[-1])
        T *= 4
    return None, T, float(I[-1])


def c5_task(d):
    EoN = eon()
    kind = d["kind"]
    disc = kind.startswith("discrete")
    out = {"id": d["id"], "kind": kind}
    try:
        if "graph" in d:
            G = graphs()[d["graph"]]
            N = G.order()
            if kind.endswith("graph-rho"):
                ic = dict(rho=d["rho"])
            else:
                ic = dict(initial_infecteds=d["inf"], initial_recovereds=d["rec"])
            if disc:
                out["entry"] = "Attack_rate_discrete_from_graph"
                run = lambda T: EoN.EBCM_discrete_from_graph(G, d["p"], tmax=T, **ic)
                ar = lambda its: EoN.Attack_rate_discrete_from_graph(G, d["p"], number_its=its, **ic)
            else:
                out["entry"] = "Attack_rate_cts_time_from_graph"
                run = lambda T: EoN.EBCM_from_graph(G, d["tau"], d["gamma"], tmax=T, tcount=5, **ic)
                ar = lambda its: EoN.Attack_rate_cts_time_from_graph(G, d["tau"], d["gamma"], number_its=its, **ic)
        else:
            Pk = PKS[d["pk"]]
            N = 1000
            kave = sum(k * Pk[k] for k in Pk)
            if kind.endswith("/rho"):
                psi, psiP = psi_funcs(Pk)
                if disc:
                    out["entry"] = "Attack_rate_discrete"
                    run = lambda T: EoN.EBCM_discrete_uniform_introduction(N, psi, psiP, d["p"], d["rho"], tmax=T)
                    ar = lambda its: EoN.Attack_rate_discrete(Pk, d["p"], rho=d["rho"], number_its=its)
                else:
                    out["entry"] = "Attack_rate_cts_time"
                    run = lambda T: EoN.EBCM_uniform_introduction(N, psi, psiP, d["tau"], d["gamma"], d["rho"], tmax=T, tcount=5)
                    ar = lambda its: EoN.Attack_rate_cts_time(Pk, d["tau"], d["gamma"], rho=d["rho"], number_its=its)
            else:
                Sk0 = sk0_of(Pk, d["sk0"])
                psihat, psihatP = psi_funcs(Pk, Sk0)
                phiR0 = d["phiR0"]
                phiS0 = psihatP(1) / kave * (1 - phiR0)
                # the recovered fraction at time 0 is part of R(t)/N and of the attack rate alike; R(0)=0 here
                if disc:
                    out["entry"] = "Attack_rate_discrete"
                    run = lambda T: EoN.EBCM_discrete(N, psihat, psihatP, d["p"], phiS0, phiR0=phiR0, R0=0, tmax=T)
                    ar = lambda its: EoN.Attack_rate_discrete(Pk, d["p"], Sk0=Sk0, phiS0=phiS0, phiR0=phiR0, number_its=its)
                else:
                    out["entry"] = "Attack_rate_cts_time"
                    run = lambda T: EoN.EBCM(N, psihat, psihatP, d["tau"], d["gamma"], phiS0, phiR0=phiR0, R0=0, tmax=T, tcount=5)
                    ar = lambda its: EoN.Attack_rate_cts_time(Pk, d["tau"], d["gamma"], Sk0=Sk0, phiS0=phiS0, phiR0=phiR0, number_its=its)
    except Exception as ex:
        out["machinery"] = "%s: %s" % (type(ex).__name__, ex)
        return out
    try:
        lim, T, Iend = _long_time(run, N, disc)
    except Exception as ex:
        out["ebcm_err"] = "%s: %s" % (type(ex).__name__, str(ex)[:100])
        lim, T, Iend = None, 0, float("nan")
    out.update(limit=lim, horizon=T, I_end=Iend)
    try:
        a_def = float(ar(100))
        its = ITS
        while True:
            try:
                a_big = float(ar(its))
                a_big2 = float(ar(its // 2))
                break
            except (OverflowError, ZeroDivisionError) as ex:
                # theta underflows towards 0 and the k=0 term k*Pk[k]*theta**(k-1) of the library's own psihatPrime
                # overflows: an artefact of asking for very many iterations, not of the relation under check
                out["its_reduced"] = "%s with number_its=%d" % (type(ex).__name__, its)
                its //= 4
                if its < 100:
                    raise
        out.update(ar_default=a_def, ar=a_big, its=its, converged=bool(abs(a_big - a_big2) < 1e-10))
    except Exception as ex:
        out["ar_err"] = "%s: %s" % (type(ex).__name__, str(ex)[:100])
    return out

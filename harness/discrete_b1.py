"""B1 binding of the discrete-time simulators to DiscreteEpi.tla."""
from . import kernel, observe
from .scripted import explore, Incomplete, run_scripted, Unmodelled
from .netepi import build_graph, pair_list

SG = None   # (w, st) -> [(frozenset(new), num, den, st2)]
SETTLE_RUNS = 30000
SETTLE_P = 1e-9


def settle_law(outcome_of_seed, expected, what, nruns=SETTLE_RUNS):
    """The scripted random source cannot follow this implementation (it transforms its uniform draws in a way that is
    no finite decision tree, e.g. log(1-U)): the law is decided with the REAL random source instead - `nruns` seeded
    runs, outcomes compared with the specification's distribution `expected` (outcome -> probability): an outcome of
    probability 0 is a violation outright, the frequencies are compared by a G-test (categories with fewer than 10
    expected runs pooled), rejected below 1e-9.  Returns a list of problems."""
    import random
    import numpy as np
    from .master import g_test
    obs = {}
    st_r, st_n = random.getstate(), np.random.get_state()
    try:
        for k in range(nruns):
            random.seed(7919 * k + 13)
            np.random.seed(k)
            try:
                o = outcome_of_seed()
            except Exception as e:
                return [{"kind": "exception:%s" % type(e).__name__, "detail": "%s raised %r (real random source, seed %d)" % (what, e, 7919 * k + 13)}]
            obs[o] = obs.get(o, 0) + 1
    finally:
        random.setstate(st_r)
        np.random.set_state(st_n)
    for o in obs:
        if expected.get(o, 0.0) <= 1e-15:
            return [{"kind": "impossible-step", "detail": "%s: outcome %r observed %d times in %d seeded runs, the chain gives it probability 0" % (what, o, obs[o], nruns)}]
    pooled_e, pooled_o = {}, {}
    for o, e in expected.items():
        key = o if e * nruns >= 10 else "__rest__"
        pooled_e[key] = pooled_e.get(key, 0.0) + e
        pooled_o[key] = pooled_o.get(key, 0) + obs.get(o, 0)
    pv, detail = g_test(pooled_o, pooled_e, nruns)
    if pv < SETTLE_P:
        worst = max(pooled_e, key=lambda k_: abs(pooled_o.get(k_, 0) - pooled_e[k_] * nruns) / (pooled_e[k_] * nruns) ** 0.5)
        return [{"kind": "probability", "detail": "%s: %d seeded runs with the real random source disagree with the chain (%s, p=%.2g); e.g. outcome %r: %d runs, expected %.1f"
                 % (what, nruns, detail, pv, worst, pooled_o.get(worst, 0), pooled_e[worst] * nruns)}]
    return []


def kernel_compare(recs, st0, succ, horizon, tol=1e-9):
    """like kernel.compare but for probability-labelled steps without a clock"""
    problems = []

    def rec(group, depth, st, hist):
        M = sum(l["prob"] for l in group)
        out = {k: (num / den, st2) for (k, num, den, st2) in succ(st)}
        by = {}
        ended = []
        for l in group:
            if len(l["events"]) > depth:
                by.setdefault(l["events"][depth], []).append(l)
            else:
                ended.append(l)
        if horizon is not None and depth >= horizon:
            if by:
                problems.append({"kind": "step-beyond-horizon", "history": hist, "detail": repr(list(by))})
            return
        if not out:
            if by:
                problems.append({"kind": "step-in-terminal-state", "history": hist, "detail": "steps %r although nobody is infectious" % (list(by),)})
            return
        if ended:
            problems.append({"kind": "stopped-early", "history": hist,
                             "detail": "run ends w.p. %r although some node is infectious" % (sum(l["prob"] for l in ended) / M)})
        for key in by:
            if key not in out:
                problems.append({"kind": "impossible-step", "history": hist, "detail": "newly infected %r impossible from %r" % (sorted(key), st)})
        for key, (ps, st2) in out.items():
            pi = sum(l["prob"] for l in by.get(key, [])) / M
            if not kernel.close(pi, ps, tol):
                problems.append({"kind": "probability", "history": hist,
                                 "detail": "newly infected %r from %r: implementation %r, Reed-Frost %r" % (sorted(key), st, pi, ps)})
        for key, sub in by.items():
            if key in out:
                rec(sub, depth + 1, out[key][1], hist + [sorted(key)])
    if recs:
        rec(recs, 0, st0, [])
    return problems


def run_scenario(task):
    import EoN
    sim, w, st0, p, full = task["sim"], task["w"], tuple(task["st0"]), task["p"], task["full"]
    n = len(st0)
    nodes = list(range(1, n + 1))
    if task.get("directed"):
        import networkx as nx
        G = nx.DiGraph()
        G.add_nodes_from(nodes)
        arcs = [(u, v) for u in nodes for v in nodes if u != v]       # lexicographic, as DPairIdx in the specification
        for (u, v), x in zip(arcs, w):
            if x:
                G.add_edge(u, v)
    else:
        G = build_graph(n, w, [1] * n)
    I0 = [u for u in nodes if st0[u - 1] == "I"]
    R0 = [u for u in nodes if st0[u - 1] == "R"]
    sis = sim == "basic_discrete_SIS"
    tmin = task.get("tmin", 0)
    horizon = task.get("horizon")
    kw = {"tmin": tmin}
    if horizon is not None:
        kw["tmax"] = tmin + horizon
    if R0:
        kw["initial_recovereds"] = list(R0)
    f = getattr(EoN, sim)
    nst = 2 if sis else 3

    def fn():
        r = f(G, p, initial_infecteds=list(I0), return_full_data=full, **kw)
        if full:
            return {"hist": {u: (list(r.node_history(u)[0]), list(r.node_history(u)[1])) for u in nodes}}
        return {"arr": [list(map(float, a)) for a in r]}

    problems = []
    recs = []
    if task.get("primed"):
        from .common import prime_same_object
        try:
            prime_same_object(G, lambda g_: f(g_, p, initial_infecteds=list(I0), return_full_data=full, **kw))
        except Exception as e:
            return {"problems": [{"kind": "exception:%s" % type(e).__name__, "script": None,
                                  "detail": "%s raised %r on a graph object that is afterwards edited in place" % (sim, e)}], "leaves": 0, "events": 0}

    def steps_from(l):
        """sequence of newly infected sets per generation (API-observable)"""
        if full:
            hist = l.result["hist"]
            byt = {}
            last = tmin
            for u in nodes:
                ts, ss = hist[u]
                for k in range(1, len(ts)):
                    last = max(last, ts[k])
                    if ss[k] == "I":
                        byt.setdefault(ts[k], set()).add(u)
            nsteps = int(round(last - tmin))
            return [frozenset(byt.get(tmin + k + 1.0, set())) for k in range(nsteps)], None
        arr = l.result["arr"]
        # arrays only give counts: project the kernel on |new|
        S, I = arr[1], arr[2]
        if sis:
            return [int(I[k + 1]) for k in range(len(I) - 1)], arr   # everyone infectious recovers, so I[k+1] = newly infected
        return [int(S[k] - S[k + 1]) for k in range(len(S) - 1)], arr

    def on_leaf(l):
        if l.loop is not None:
            return False
        if l.error is not None:
            problems.append({"kind": "exception:%s" % type(l.error).__name__, "detail": "%s raised %r" % (sim, l.error), "script": l.script})
            return True
        ev, arr = steps_from(l)
        recs.append({"prob": None, "events": ev, "leaf": l})
        return False

    def succ(st):
        return SG.get((tuple(w), st), [])

    try:
        leaves = explore(fn, on_leaf=on_leaf, max_leaves=task.get("max_leaves", 60000))
    except Unmodelled as e:
        if task.get("probe"):
            return {"problems": [], "leaves": 0, "events": 0, "unmodelled": str(e)}
        # no finite decision tree: decide the law of the whole run with the real random source
        class _L(object):
            pass
        spec = {}

        def push_(st, prob, seq, depth):
            out = succ(st)
            if not out or (horizon is not None and depth >= horizon):
                spec[tuple(seq)] = spec.get(tuple(seq), 0.0) + prob
                return
            for (new, num, den, st2) in out:
                push_(st2, prob * num / den, seq + [new if full else len(new)], depth + 1)
        push_(st0, 1.0, [], 0)

        def one():
            l = _L()
            l.result = fn()
            return tuple(steps_from(l)[0])
        pr = settle_law(one, spec, "%s (newly infected per step, %s)" % (sim, "node sets" if full else "counts"))
        for p_ in pr:
            p_.setdefault("script", None)
        return {"problems": pr, "leaves": SETTLE_RUNS, "events": 1, "settled": "unmodelled: %s" % e}
    if isinstance(leaves, Incomplete) or not recs:
        return {"problems": problems, "leaves": len(leaves), "events": 0}
    for r in recs:
        r["prob"] = r["leaf"].prob

    def succ_counts(st_set):
        raise NotImplementedError

    if full:
        problems += kernel_compare(recs, st0, succ, horizon)
    else:
        # count-level projection: distribution over sequences of (number newly infected); compare with the spec's
        # by pushing the spec kernel forward from st0 over node-level states
        impl = {}
        for r in recs:
            impl[tuple(r["events"])] = impl.get(tuple(r["events"]), 0.0) + r["prob"]
        spec = {}

        def push(st, prob, seq, depth):
            out = succ(st)
            if not out or (horizon is not None and depth >= horizon):
                spec[tuple(seq)] = spec.get(tuple(seq), 0.0) + prob
                return
            for (new, num, den, st2) in out:
                push(st2, prob * num / den, seq + [len(new)], depth + 1)
        push(st0, 1.0, [], 0)
        for k in set(impl) | set(spec):
            if not kernel.close(impl.get(k, 0.0), spec.get(k, 0.0)):
                problems.append({"kind": "probability", "detail": "numbers of newly infected per step %r: implementation %r, Reed-Frost %r"
                                 % (list(k), impl.get(k, 0.0), spec.get(k, 0.0))})
                break
        # rows well-formed w.r.t. the run: I[k+1] = newly infected, R accumulates (SIR)
        for r in recs[:50]:
            arr = r["leaf"].result["arr"]
            t, S, I = arr[0], arr[1], arr[2]
            if t != [float(tmin + k) for k in range(len(t))]:
                problems.append({"kind": "times", "detail": "times %r" % (t,)})
                break
            ok = sis or all(I[k + 1] == S[k] - S[k + 1] for k in range(len(S) - 1))
            if not sis:
                R = arr[3]
                ok = ok and all(R[k + 1] == R[k] + I[k] for k in range(len(R) - 1)) and all(S[k] + I[k] + R[k] == n for k in range(len(S)))
            else:
                ok = ok and all(S[k] + I[k] == n for k in range(len(S)))
            if not ok:
                problems.append({"kind": "rows", "detail": "arrays %r are not a Reed-Frost / discrete SIS trajectory" % (arr,)})
                break
    for p_ in problems:
        p_.setdefault("script", None)
    return {"problems": problems, "leaves": len(leaves), "events": sum(len(r["events"]) for r in recs)}


def percolate_scenario(task):
    """percolate_network(G, p): each edge tested exactly once and kept w.p. p, same node set"""
    import EoN
    w, p = task["w"], task["p"]
    n = task["n"]
    G = build_graph(n, w, [1] * n)
    edges = [e for e, x in zip(pair_list(n), w) if x]
    m = len(edges)

    if task.get("primed"):
        from .common import prime_same_object
        prime_same_object(G, lambda g_: EoN.percolate_network(g_, p))

    def fn():
        H = EoN.percolate_network(G, p)
        return (sorted(H.nodes()), sorted(tuple(sorted(e)) for e in H.edges()), H.is_directed())
    try:
        leaves = explore(fn)
    except Unmodelled as e:
        import itertools
        expected = {}
        for k in range(m + 1):
            for K in itertools.combinations(sorted(tuple(sorted(e_)) for e_ in edges), k):
                expected[K] = task["perc"][k]          # TLC-emitted probability of one particular set of k kept edges out of m

        def one():
            nodes, kept, directed = fn()
            if nodes != list(range(1, n + 1)) or directed:
                return ("nodes", tuple(nodes), directed)
            return tuple(kept)
        pr = settle_law(one, expected, "percolate_network (set of kept edges)")
        return {"problems": [dict(q, kind="percolate-" + q["kind"]) for q in pr], "dist": None, "m": m, "leaves": SETTLE_RUNS, "settled": "unmodelled: %s" % e}
    problems = []
    seen = {}
    for l in leaves:
        if l.error is not None:
            problems.append({"kind": "exception:%s" % type(l.error).__name__, "detail": repr(l.error)})
            break
        nodes, kept, directed = l.result
        if nodes != list(range(1, n + 1)) or directed:
            problems.append({"kind": "percolate-nodes", "detail": "nodes %r directed %r" % (nodes, directed)})
        if not set(kept) <= set(edges):
            problems.append({"kind": "percolate-foreign-edge", "detail": repr(kept)})
        seen[tuple(kept)] = seen.get(tuple(kept), 0.0) + l.prob
        ncmp = sum(1 for t in l.tape if t[0] in ("cmp", "cmpdet"))
        if ncmp != m:
            problems.append({"kind": "percolate-tests", "detail": "%d Bernoulli tests for %d edges" % (ncmp, m)})
    return {"problems": problems, "dist": seen, "m": m, "leaves": len(leaves)}
